//! Writer programs: AST, token form (shared with the Lean driver), parser, executor on the real crate.
use crate::dev::*;
use crate::util::*;
use e57::*;
use std::collections::BTreeMap;

#[derive(Clone, Debug, PartialEq)]
pub enum Val {
    I(i64),
    S(i64),
    F(u32),
    D(u64),
}

impl Val {
    pub fn tok(&self) -> String {
        match self {
            Val::I(v) => format!("i{v}"),
            Val::S(v) => format!("s{v}"),
            Val::F(v) => format!("f{v}"),
            Val::D(v) => format!("d{v}"),
        }
    }
    pub fn parse(s: &str) -> Option<Val> {
        let (k, r) = s.split_at(1);
        Some(match k {
            "i" => Val::I(r.parse().ok()?),
            "s" => Val::S(r.parse().ok()?),
            "f" => Val::F(r.parse().ok()?),
            "d" => Val::D(r.parse().ok()?),
            _ => return None,
        })
    }
    pub fn rv(&self) -> RecordValue {
        match self {
            Val::I(v) => RecordValue::Integer(*v),
            Val::S(v) => RecordValue::ScaledInteger(*v),
            Val::F(v) => RecordValue::Single(f32::from_bits(*v)),
            Val::D(v) => RecordValue::Double(f64::from_bits(*v)),
        }
    }
    pub fn from_rv(v: &RecordValue) -> Val {
        match v {
            RecordValue::Integer(v) => Val::I(*v),
            RecordValue::ScaledInteger(v) => Val::S(*v),
            RecordValue::Single(v) => Val::F(v.to_bits()),
            RecordValue::Double(v) => Val::D(v.to_bits()),
        }
    }
}

pub fn opt_tok<T>(o: &Option<T>, f: impl Fn(&T) -> String) -> String {
    match o {
        Some(v) => f(v),
        None => "~".into(),
    }
}

#[derive(Clone, Debug, PartialEq)]
pub enum DT {
    F32(Option<u32>, Option<u32>),
    F64(Option<u64>, Option<u64>),
    I(i64, i64),
    S(i64, i64, u64, u64),
}

impl DT {
    pub fn tok(&self) -> String {
        match self {
            DT::F32(a, b) => format!("F32:{}:{}", opt_tok(a, |x| x.to_string()), opt_tok(b, |x| x.to_string())),
            DT::F64(a, b) => format!("F64:{}:{}", opt_tok(a, |x| x.to_string()), opt_tok(b, |x| x.to_string())),
            DT::I(a, b) => format!("I:{a}:{b}"),
            DT::S(a, b, c, d) => format!("S:{a}:{b}:{c}:{d}"),
        }
    }
    pub fn parse(s: &str) -> Option<DT> {
        let p: Vec<&str> = s.split(':').collect();
        let o32 = |x: &str| -> Option<Option<u32>> { if x == "~" { Some(None) } else { Some(Some(x.parse().ok()?)) } };
        let o64 = |x: &str| -> Option<Option<u64>> { if x == "~" { Some(None) } else { Some(Some(x.parse().ok()?)) } };
        Some(match p[0] {
            "F32" => DT::F32(o32(p[1])?, o32(p[2])?),
            "F64" => DT::F64(o64(p[1])?, o64(p[2])?),
            "I" => DT::I(p[1].parse().ok()?, p[2].parse().ok()?),
            "S" => DT::S(p[1].parse().ok()?, p[2].parse().ok()?, p[3].parse().ok()?, p[4].parse().ok()?),
            _ => return None,
        })
    }
    pub fn rdt(&self) -> RecordDataType {
        match self {
            DT::F32(a, b) => RecordDataType::Single { min: a.map(f32::from_bits), max: b.map(f32::from_bits) },
            DT::F64(a, b) => RecordDataType::Double { min: a.map(f64::from_bits), max: b.map(f64::from_bits) },
            DT::I(a, b) => RecordDataType::Integer { min: *a, max: *b },
            DT::S(a, b, c, d) => RecordDataType::ScaledInteger { min: *a, max: *b, scale: f64::from_bits(*c), offset: f64::from_bits(*d) },
        }
    }
    pub fn from_rdt(d: &RecordDataType) -> DT {
        match d {
            RecordDataType::Single { min, max } => DT::F32(min.map(|x| x.to_bits()), max.map(|x| x.to_bits())),
            RecordDataType::Double { min, max } => DT::F64(min.map(|x| x.to_bits()), max.map(|x| x.to_bits())),
            RecordDataType::Integer { min, max } => DT::I(*min, *max),
            RecordDataType::ScaledInteger { min, max, scale, offset } => DT::S(*min, *max, scale.to_bits(), offset.to_bits()),
        }
    }
    /// independent reference: is a value storable in this type
    pub fn accepts(&self, v: &Val) -> bool {
        match (self, v) {
            (DT::F32(..), Val::F(_)) => true,
            (DT::F64(..), Val::D(_)) => true,
            (DT::I(a, b), Val::I(v)) => a <= v && v <= b,
            (DT::S(a, b, ..), Val::S(v)) => a <= v && v <= b,
            _ => false,
        }
    }
    /// reference `to_f64`
    pub fn to_f64(&self, v: &Val) -> Option<f64> {
        Some(match (self, v) {
            (_, Val::F(b)) => f32::from_bits(*b) as f64,
            (_, Val::D(b)) => f64::from_bits(*b),
            (DT::S(_, _, sc, of), Val::S(i)) => *i as f64 * f64::from_bits(*sc) + f64::from_bits(*of),
            (_, Val::I(i)) => *i as f64,
            _ => return None,
        })
    }
}

pub const STD_NAMES: [&str; 20] = [
    "cartesianX", "cartesianY", "cartesianZ", "cartesianInvalidState", "sphericalRange", "sphericalAzimuth",
    "sphericalElevation", "sphericalInvalidState", "intensity", "isIntensityInvalid", "colorRed", "colorGreen",
    "colorBlue", "isColorInvalid", "rowIndex", "columnIndex", "returnCount", "returnIndex", "timeStamp",
    "isTimeStampInvalid",
];

#[derive(Clone, Debug, PartialEq)]
pub enum RName {
    Std(String),
    Ext(String, String),
}

impl RName {
    pub fn tok(&self) -> String {
        match self {
            RName::Std(s) => s.clone(),
            RName::Ext(ns, n) => format!("U:{}:{}", hexs(ns), hexs(n)),
        }
    }
    pub fn parse(s: &str) -> Option<RName> {
        let p: Vec<&str> = s.split(':').collect();
        if p.len() == 3 && p[0] == "U" {
            Some(RName::Ext(String::from_utf8(unhex(p[1])?).ok()?, String::from_utf8(unhex(p[2])?).ok()?))
        } else {
            Some(RName::Std(s.to_string()))
        }
    }
    pub fn rn(&self) -> RecordName {
        match self {
            RName::Std(s) => match s.as_str() {
                "cartesianX" => RecordName::CartesianX,
                "cartesianY" => RecordName::CartesianY,
                "cartesianZ" => RecordName::CartesianZ,
                "cartesianInvalidState" => RecordName::CartesianInvalidState,
                "sphericalRange" => RecordName::SphericalRange,
                "sphericalAzimuth" => RecordName::SphericalAzimuth,
                "sphericalElevation" => RecordName::SphericalElevation,
                "sphericalInvalidState" => RecordName::SphericalInvalidState,
                "intensity" => RecordName::Intensity,
                "isIntensityInvalid" => RecordName::IsIntensityInvalid,
                "colorRed" => RecordName::ColorRed,
                "colorGreen" => RecordName::ColorGreen,
                "colorBlue" => RecordName::ColorBlue,
                "isColorInvalid" => RecordName::IsColorInvalid,
                "rowIndex" => RecordName::RowIndex,
                "columnIndex" => RecordName::ColumnIndex,
                "returnCount" => RecordName::ReturnCount,
                "returnIndex" => RecordName::ReturnIndex,
                "timeStamp" => RecordName::TimeStamp,
                _ => RecordName::IsTimeStampInvalid,
            },
            RName::Ext(ns, n) => RecordName::Unknown { namespace: ns.clone(), name: n.clone() },
        }
    }
    pub fn from_rn(n: &RecordName) -> RName {
        match n {
            RecordName::Unknown { namespace, name } => RName::Ext(namespace.clone(), name.clone()),
            RecordName::CartesianX => RName::Std("cartesianX".into()),
            RecordName::CartesianY => RName::Std("cartesianY".into()),
            RecordName::CartesianZ => RName::Std("cartesianZ".into()),
            RecordName::CartesianInvalidState => RName::Std("cartesianInvalidState".into()),
            RecordName::SphericalRange => RName::Std("sphericalRange".into()),
            RecordName::SphericalAzimuth => RName::Std("sphericalAzimuth".into()),
            RecordName::SphericalElevation => RName::Std("sphericalElevation".into()),
            RecordName::SphericalInvalidState => RName::Std("sphericalInvalidState".into()),
            RecordName::Intensity => RName::Std("intensity".into()),
            RecordName::IsIntensityInvalid => RName::Std("isIntensityInvalid".into()),
            RecordName::ColorRed => RName::Std("colorRed".into()),
            RecordName::ColorGreen => RName::Std("colorGreen".into()),
            RecordName::ColorBlue => RName::Std("colorBlue".into()),
            RecordName::IsColorInvalid => RName::Std("isColorInvalid".into()),
            RecordName::RowIndex => RName::Std("rowIndex".into()),
            RecordName::ColumnIndex => RName::Std("columnIndex".into()),
            RecordName::ReturnCount => RName::Std("returnCount".into()),
            RecordName::ReturnIndex => RName::Std("returnIndex".into()),
            RecordName::TimeStamp => RName::Std("timeStamp".into()),
            RecordName::IsTimeStampInvalid => RName::Std("isTimeStampInvalid".into()),
        }
    }
    pub fn is(&self, s: &str) -> bool {
        matches!(self, RName::Std(x) if x == s)
    }
}

#[derive(Clone, Debug, PartialEq)]
pub struct Rec {
    pub name: RName,
    pub dt: DT,
}

impl Rec {
    pub fn tok(&self) -> String {
        format!("{}|{}", self.name.tok(), self.dt.tok())
    }
    pub fn parse(s: &str) -> Option<Rec> {
        let (a, b) = s.split_once('|')?;
        Some(Rec { name: RName::parse(a)?, dt: DT::parse(b)? })
    }
    pub fn record(&self) -> Record {
        Record { name: self.name.rn(), data_type: self.dt.rdt() }
    }
    pub fn from_record(r: &Record) -> Rec {
        Rec { name: RName::from_rn(&r.name), dt: DT::from_rdt(&r.data_type) }
    }
}

#[derive(Clone, Debug, PartialEq)]
pub enum Data {
    Hex(Vec<u8>),
    Gen(usize, usize),
}

impl Data {
    pub fn tok(&self) -> String {
        match self {
            Data::Hex(b) => format!("w:{}", hex(b)),
            Data::Gen(n, s) => format!("g{n}:{s}"),
        }
    }
    pub fn parse(s: &str) -> Option<Data> {
        if let Some(h) = s.strip_prefix("w:") {
            Some(Data::Hex(unhex(h)?))
        } else if let Some(r) = s.strip_prefix('g') {
            let (n, sd) = r.split_once(':')?;
            Some(Data::Gen(n.parse().ok()?, sd.parse().ok()?))
        } else {
            None
        }
    }
    pub fn bytes(&self) -> Vec<u8> {
        match self {
            Data::Hex(b) => b.clone(),
            Data::Gen(n, s) => gen_data(*n, *s),
        }
    }
}

pub type Dt = (u64, bool);
pub type Tr = [u64; 7]; // w x y z tx ty tz

#[derive(Clone, Debug, PartialEq)]
pub enum PcStmt {
    P(Vec<Val>),
    Str(&'static str, Option<String>), // NAME DESC VENDOR MODEL SERIAL HW SW FW
    Og(Option<Vec<String>>),
    Tr(Option<Tr>),
    Time(&'static str, Option<Dt>), // AS AE
    Flt(&'static str, Option<u64>), // TEMP HUM PRES
    Il(Option<(Option<Val>, Option<Val>)>),
    Cl(Option<[Option<Val>; 6]>),
    /// `PointCloudWriter::finalize` in the middle of the body: whatever follows meets a finalized writer
    Fin,
}

#[derive(Clone, Debug, PartialEq)]
pub enum ImgStmt {
    Str(&'static str, String), // NAME DESC PCG VENDOR MODEL SERIAL
    Tr(Tr),
    Acq(Dt),
    Vis { fmt: char, data: Data, w: u32, h: u32, mask: Option<Data> },
    Pin { fmt: char, data: Data, w: u32, h: u32, f: [u64; 5], mask: Option<Data> }, // focal pw ph px py
    Sph { fmt: char, data: Data, w: u32, h: u32, f: [u64; 2], mask: Option<Data> }, // pw ph
    Cyl { fmt: char, data: Data, w: u32, h: u32, f: [u64; 4], mask: Option<Data> }, // radius py pw ph
}

#[derive(Clone, Debug, PartialEq)]
pub enum Stmt {
    Ext(String, String),
    Cm(Option<String>),
    Cr(Option<Dt>),
    Blob(Data),
    Pc { guid: String, proto: Vec<Rec>, body: Vec<PcStmt>, end: bool },
    Img { guid: String, body: Vec<ImgStmt>, end: bool },
    Fin,
    FinX(String),
}

#[derive(Clone, Debug, PartialEq)]
pub struct Program {
    pub guid: String,
    pub stmts: Vec<Stmt>,
}

fn dt_tok(d: &Dt) -> String {
    format!("{}:{}", d.0, if d.1 { 1 } else { 0 })
}
fn dt_parse(s: &str) -> Option<Option<Dt>> {
    if s == "~" {
        return Some(None);
    }
    let (a, b) = s.split_once(':')?;
    Some(Some((a.parse().ok()?, b == "1")))
}
fn ostr_tok(o: &Option<String>) -> String {
    opt_tok(o, |s| hexs(s))
}
fn ostr_parse(s: &str) -> Option<Option<String>> {
    if s == "~" {
        Some(None)
    } else {
        Some(Some(String::from_utf8(unhex(s)?).ok()?))
    }
}
fn str_parse(s: &str) -> Option<String> {
    String::from_utf8(unhex(s)?).ok()
}
fn static_kw(s: &str) -> Option<&'static str> {
    for k in ["NAME", "DESC", "VENDOR", "MODEL", "SERIAL", "HW", "SW", "FW", "AS", "AE", "TEMP", "HUM", "PRES", "PCG"] {
        if k == s {
            return Some(k);
        }
    }
    None
}

impl Program {
    pub fn tokens(&self) -> Vec<String> {
        let mut t: Vec<String> = vec![hexs(&self.guid)];
        for s in &self.stmts {
            match s {
                Stmt::Ext(a, b) => t.extend(["EXT".into(), hexs(a), hexs(b)]),
                Stmt::Cm(v) => t.extend(["CM".into(), ostr_tok(v)]),
                Stmt::Cr(v) => t.extend(["CR".into(), opt_tok(v, dt_tok)]),
                Stmt::Blob(d) => t.extend(["BLOB".into(), d.tok()]),
                Stmt::Fin => t.push("FIN".into()),
                Stmt::FinX(m) => t.extend(["FINX".into(), m.clone()]),
                Stmt::Pc { guid, proto, body, end } => {
                    t.extend(["PC".into(), hexs(guid), proto.len().to_string()]);
                    t.extend(proto.iter().map(|r| r.tok()));
                    for b in body {
                        match b {
                            PcStmt::P(vs) => {
                                t.extend(["P".into(), vs.len().to_string()]);
                                t.extend(vs.iter().map(|v| v.tok()));
                            }
                            PcStmt::Str(k, v) => t.extend([k.to_string(), ostr_tok(v)]),
                            PcStmt::Og(None) => t.extend(["OG".into(), "~".into()]),
                            PcStmt::Og(Some(gs)) => {
                                t.extend(["OG".into(), gs.len().to_string()]);
                                t.extend(gs.iter().map(|g| hexs(g)));
                            }
                            PcStmt::Tr(None) => t.extend(["TR".into(), "~".into()]),
                            PcStmt::Tr(Some(x)) => {
                                t.push("TR".into());
                                t.extend(x.iter().map(|v| v.to_string()));
                            }
                            PcStmt::Time(k, v) => t.extend([k.to_string(), opt_tok(v, dt_tok)]),
                            PcStmt::Flt(k, v) => t.extend([k.to_string(), opt_tok(v, |x| x.to_string())]),
                            PcStmt::Il(None) => t.push("ILN".into()),
                            PcStmt::Il(Some((a, b))) => t.extend(["IL".into(), opt_tok(a, |v| v.tok()), opt_tok(b, |v| v.tok())]),
                            PcStmt::Fin => t.push("PFIN".into()),
                            PcStmt::Cl(None) => t.push("CLN".into()),
                            PcStmt::Cl(Some(l)) => {
                                t.push("CL".into());
                                t.extend(l.iter().map(|v| opt_tok(v, |x| x.tok())));
                            }
                        }
                    }
                    t.push(if *end { "END".into() } else { "ABANDON".into() });
                }
                Stmt::Img { guid, body, end } => {
                    t.extend(["IMG".into(), hexs(guid)]);
                    for b in body {
                        match b {
                            ImgStmt::Str(k, v) => t.extend([k.to_string(), hexs(v)]),
                            ImgStmt::Tr(x) => {
                                t.push("TR".into());
                                t.extend(x.iter().map(|v| v.to_string()));
                            }
                            ImgStmt::Acq(d) => t.extend(["ACQ".into(), dt_tok(d)]),
                            ImgStmt::Vis { fmt, data, w, h, mask } => {
                                t.extend(["VIS".into(), fmt.to_string(), data.tok(), w.to_string(), h.to_string(), opt_tok(mask, |m| m.tok())])
                            }
                            ImgStmt::Pin { fmt, data, w, h, f, mask } => {
                                t.extend(["PIN".into(), fmt.to_string(), data.tok(), w.to_string(), h.to_string()]);
                                t.extend(f.iter().map(|v| v.to_string()));
                                t.push(opt_tok(mask, |m| m.tok()));
                            }
                            ImgStmt::Sph { fmt, data, w, h, f, mask } => {
                                t.extend(["SPH".into(), fmt.to_string(), data.tok(), w.to_string(), h.to_string()]);
                                t.extend(f.iter().map(|v| v.to_string()));
                                t.push(opt_tok(mask, |m| m.tok()));
                            }
                            ImgStmt::Cyl { fmt, data, w, h, f, mask } => {
                                t.extend(["CYL".into(), fmt.to_string(), data.tok(), w.to_string(), h.to_string()]);
                                t.extend(f.iter().map(|v| v.to_string()));
                                t.push(opt_tok(mask, |m| m.tok()));
                            }
                        }
                    }
                    t.push(if *end { "END".into() } else { "ABANDON".into() });
                }
            }
        }
        t
    }

    /// parse the statement tokens (after the float tables and library version)
    pub fn parse(t: &[&str]) -> Option<Program> {
        let guid = str_parse(t[0])?;
        let mut i = 1;
        let mut stmts = vec![];
        let odata = |s: &str| -> Option<Option<Data>> { if s == "~" { Some(None) } else { Some(Some(Data::parse(s)?)) } };
        while i < t.len() {
            match t[i] {
                "EXT" => {
                    stmts.push(Stmt::Ext(str_parse(t[i + 1])?, str_parse(t[i + 2])?));
                    i += 3;
                }
                "CM" => {
                    stmts.push(Stmt::Cm(ostr_parse(t[i + 1])?));
                    i += 2;
                }
                "CR" => {
                    stmts.push(Stmt::Cr(dt_parse(t[i + 1])?));
                    i += 2;
                }
                "BLOB" => {
                    stmts.push(Stmt::Blob(Data::parse(t[i + 1])?));
                    i += 2;
                }
                "FIN" => {
                    stmts.push(Stmt::Fin);
                    i += 1;
                }
                "FINX" => {
                    stmts.push(Stmt::FinX(t[i + 1].to_string()));
                    i += 2;
                }
                "PC" => {
                    let guid = str_parse(t[i + 1])?;
                    let n: usize = t[i + 2].parse().ok()?;
                    let proto: Option<Vec<Rec>> = t[i + 3..i + 3 + n].iter().map(|r| Rec::parse(r)).collect();
                    i += 3 + n;
                    let mut body = vec![];
                    let end;
                    loop {
                        match t[i] {
                            "END" => {
                                end = true;
                                i += 1;
                                break;
                            }
                            "ABANDON" => {
                                end = false;
                                i += 1;
                                break;
                            }
                            "PFIN" => {
                                body.push(PcStmt::Fin);
                                i += 1;
                            }
                            "P" => {
                                let k: usize = t[i + 1].parse().ok()?;
                                let vs: Option<Vec<Val>> = t[i + 2..i + 2 + k].iter().map(|v| Val::parse(v)).collect();
                                body.push(PcStmt::P(vs?));
                                i += 2 + k;
                            }
                            "OG" => {
                                if t[i + 1] == "~" {
                                    body.push(PcStmt::Og(None));
                                    i += 2;
                                } else {
                                    let k: usize = t[i + 1].parse().ok()?;
                                    let gs: Option<Vec<String>> = t[i + 2..i + 2 + k].iter().map(|g| str_parse(g)).collect();
                                    body.push(PcStmt::Og(Some(gs?)));
                                    i += 2 + k;
                                }
                            }
                            "TR" => {
                                if t[i + 1] == "~" {
                                    body.push(PcStmt::Tr(None));
                                    i += 2;
                                } else {
                                    let mut x = [0u64; 7];
                                    for k in 0..7 {
                                        x[k] = t[i + 1 + k].parse().ok()?;
                                    }
                                    body.push(PcStmt::Tr(Some(x)));
                                    i += 8;
                                }
                            }
                            "ILN" => {
                                body.push(PcStmt::Il(None));
                                i += 1;
                            }
                            "CLN" => {
                                body.push(PcStmt::Cl(None));
                                i += 1;
                            }
                            "IL" => {
                                {
                                    let ov = |s: &str| -> Option<Option<Val>> { if s == "~" { Some(None) } else { Some(Some(Val::parse(s)?)) } };
                                    body.push(PcStmt::Il(Some((ov(t[i + 1])?, ov(t[i + 2])?))));
                                    i += 3;
                                }
                            }
                            "CL" => {
                                {
                                    let ov = |s: &str| -> Option<Option<Val>> { if s == "~" { Some(None) } else { Some(Some(Val::parse(s)?)) } };
                                    let mut l: [Option<Val>; 6] = Default::default();
                                    for k in 0..6 {
                                        l[k] = ov(t[i + 1 + k])?;
                                    }
                                    body.push(PcStmt::Cl(Some(l)));
                                    i += 7;
                                }
                            }
                            "AS" | "AE" => {
                                body.push(PcStmt::Time(static_kw(t[i])?, dt_parse(t[i + 1])?));
                                i += 2;
                            }
                            "TEMP" | "HUM" | "PRES" => {
                                let v = if t[i + 1] == "~" { None } else { Some(t[i + 1].parse().ok()?) };
                                body.push(PcStmt::Flt(static_kw(t[i])?, v));
                                i += 2;
                            }
                            k => {
                                body.push(PcStmt::Str(static_kw(k)?, ostr_parse(t[i + 1])?));
                                i += 2;
                            }
                        }
                    }
                    stmts.push(Stmt::Pc { guid, proto: proto?, body, end });
                }
                "IMG" => {
                    let guid = str_parse(t[i + 1])?;
                    i += 2;
                    let mut body = vec![];
                    let end;
                    loop {
                        let fmtc = |s: &str| s.chars().next().unwrap_or('P');
                        match t[i] {
                            "END" => {
                                end = true;
                                i += 1;
                                break;
                            }
                            "ABANDON" => {
                                end = false;
                                i += 1;
                                break;
                            }
                            "TR" => {
                                let mut x = [0u64; 7];
                                for k in 0..7 {
                                    x[k] = t[i + 1 + k].parse().ok()?;
                                }
                                body.push(ImgStmt::Tr(x));
                                i += 8;
                            }
                            "ACQ" => {
                                body.push(ImgStmt::Acq(dt_parse(t[i + 1])??));
                                i += 2;
                            }
                            "VIS" => {
                                body.push(ImgStmt::Vis { fmt: fmtc(t[i + 1]), data: Data::parse(t[i + 2])?, w: t[i + 3].parse().ok()?, h: t[i + 4].parse().ok()?, mask: odata(t[i + 5])? });
                                i += 6;
                            }
                            "PIN" => {
                                let mut f = [0u64; 5];
                                for k in 0..5 {
                                    f[k] = t[i + 5 + k].parse().ok()?;
                                }
                                body.push(ImgStmt::Pin { fmt: fmtc(t[i + 1]), data: Data::parse(t[i + 2])?, w: t[i + 3].parse().ok()?, h: t[i + 4].parse().ok()?, f, mask: odata(t[i + 10])? });
                                i += 11;
                            }
                            "SPH" => {
                                let mut f = [0u64; 2];
                                for k in 0..2 {
                                    f[k] = t[i + 5 + k].parse().ok()?;
                                }
                                body.push(ImgStmt::Sph { fmt: fmtc(t[i + 1]), data: Data::parse(t[i + 2])?, w: t[i + 3].parse().ok()?, h: t[i + 4].parse().ok()?, f, mask: odata(t[i + 7])? });
                                i += 8;
                            }
                            "CYL" => {
                                let mut f = [0u64; 4];
                                for k in 0..4 {
                                    f[k] = t[i + 5 + k].parse().ok()?;
                                }
                                body.push(ImgStmt::Cyl { fmt: fmtc(t[i + 1]), data: Data::parse(t[i + 2])?, w: t[i + 3].parse().ok()?, h: t[i + 4].parse().ok()?, f, mask: odata(t[i + 9])? });
                                i += 10;
                            }
                            k => {
                                body.push(ImgStmt::Str(static_kw(k)?, str_parse(t[i + 1])?));
                                i += 2;
                            }
                        }
                    }
                    stmts.push(Stmt::Img { guid, body, end });
                }
                _ => return None,
            }
        }
        Some(Program { guid, stmts })
    }

    /// every float whose decimal text the model may need: (f64 table, f32 table)
    pub fn float_tables(&self) -> (BTreeMap<u64, String>, BTreeMap<u32, String>) {
        let mut t64: BTreeMap<u64, String> = BTreeMap::new();
        let mut t32: BTreeMap<u32, String> = BTreeMap::new();
        fn a64(t: &mut BTreeMap<u64, String>, b: u64) {
            t.entry(b).or_insert_with(|| format!("{}", f64::from_bits(b)));
        }
        fn a32(t: &mut BTreeMap<u32, String>, b: u32) {
            t.entry(b).or_insert_with(|| format!("{}", f32::from_bits(b)));
        }
        a64(&mut t64, 0);
        a32(&mut t32, 0);
        let val = |t64: &mut BTreeMap<u64, String>, t32: &mut BTreeMap<u32, String>, v: &Val| match v {
            Val::F(b) => a32(t32, *b),
            Val::D(b) => a64(t64, *b),
            _ => {}
        };
        for s in &self.stmts {
            match s {
                Stmt::Cr(Some(d)) => a64(&mut t64, d.0),
                Stmt::Pc { proto, body, .. } => {
                    for r in proto {
                        match &r.dt {
                            DT::F32(a, b) => {
                                for x in [a, b].into_iter().flatten() {
                                    a32(&mut t32, *x)
                                }
                            }
                            DT::F64(a, b) => {
                                for x in [a, b].into_iter().flatten() {
                                    a64(&mut t64, *x)
                                }
                            }
                            DT::S(_, _, c, d) => {
                                a64(&mut t64, *c);
                                a64(&mut t64, *d);
                            }
                            _ => {}
                        }
                    }
                    for b in body {
                        match b {
                            PcStmt::P(vs) => {
                                for (r, v) in proto.iter().zip(vs.iter()) {
                                    let coord = ["cartesianX", "cartesianY", "cartesianZ", "sphericalRange", "sphericalAzimuth", "sphericalElevation"].iter().any(|n| r.name.is(n));
                                    if coord {
                                        if let Some(f) = r.dt.to_f64(v) {
                                            a64(&mut t64, f.to_bits());
                                        }
                                    }
                                }
                            }
                            PcStmt::Tr(Some(x)) => x.iter().for_each(|v| a64(&mut t64, *v)),
                            PcStmt::Time(_, Some(d)) => a64(&mut t64, d.0),
                            PcStmt::Flt(_, Some(v)) => a64(&mut t64, *v),
                            PcStmt::Il(Some((a, b))) => {
                                for x in [a, b].into_iter().flatten() {
                                    val(&mut t64, &mut t32, x)
                                }
                            }
                            PcStmt::Cl(Some(l)) => {
                                for x in l.iter().flatten() {
                                    val(&mut t64, &mut t32, x)
                                }
                            }
                            _ => {}
                        }
                    }
                }
                Stmt::Img { body, .. } => {
                    for b in body {
                        match b {
                            ImgStmt::Tr(x) => x.iter().for_each(|v| a64(&mut t64, *v)),
                            ImgStmt::Acq(d) => a64(&mut t64, d.0),
                            ImgStmt::Pin { f, .. } => f.iter().for_each(|v| a64(&mut t64, *v)),
                            ImgStmt::Sph { f, .. } => f.iter().for_each(|v| a64(&mut t64, *v)),
                            ImgStmt::Cyl { f, .. } => f.iter().for_each(|v| a64(&mut t64, *v)),
                            _ => {}
                        }
                    }
                }
                _ => {}
            }
        }
        (t64, t32)
    }

    /// the complete case line for the model
    pub fn case_line(&self, lib_version: &str) -> String {
        let (t64, t32) = self.float_tables();
        let mut t: Vec<String> = vec!["wr".into(), t64.len().to_string()];
        t.extend(t64.iter().map(|(b, s)| format!("{}={}", b, hexs(s))));
        t.push(t32.len().to_string());
        t.extend(t32.iter().map(|(b, s)| format!("{}={}", b, hexs(s))));
        t.push(hexs(lib_version));
        t.extend(self.tokens());
        t.join(" ")
    }
}

/// split a case line into (library version, program)
pub fn parse_case_line(line: &str) -> Option<(String, Program)> {
    let t: Vec<&str> = line.split_whitespace().collect();
    let mut i = 1;
    let n: usize = t.get(i)?.parse().ok()?;
    i += 1 + n;
    let m: usize = t.get(i)?.parse().ok()?;
    i += 1 + m;
    let lv = str_parse(t.get(i)?)?;
    Some((lv, Program::parse(&t[i + 1..])?))
}

pub fn mk_tr(x: &Tr) -> Transform {
    let f = |i: usize| f64::from_bits(x[i]);
    Transform { rotation: Quaternion { w: f(0), x: f(1), y: f(2), z: f(3) }, translation: Translation { x: f(4), y: f(5), z: f(6) } }
}
pub fn mk_dt(d: &Dt) -> DateTime {
    DateTime { gps_time: f64::from_bits(d.0), atomic_reference: d.1 }
}
fn mk_fmt(c: char) -> ImageFormat {
    if c == 'J' {
        ImageFormat::Jpeg
    } else {
        ImageFormat::Png
    }
}


/// the caller's reader for blob and image data: a legal `Read` that hands out the bytes in short pieces
/// (sizes derived from the data itself, so that runs are reproducible); every third blob reads in one piece
pub struct PieceReader {
    data: Vec<u8>,
    pos: usize,
    k: usize,
}
impl PieceReader {
    pub fn new(data: Vec<u8>) -> Self {
        PieceReader { data, pos: 0, k: 0 }
    }
}
impl std::io::Read for PieceReader {
    fn read(&mut self, buf: &mut [u8]) -> std::io::Result<usize> {
        let left = self.data.len() - self.pos;
        let mut n = buf.len().min(left);
        if self.data.len() % 3 != 0 && n > 1 {
            // short reads: 1, 7, 1000, 4096, 10, ... bytes
            let sizes = [1usize, 7, 1000, 4096, 10, 8191, 3, 512];
            n = n.min(sizes[(self.k + self.data.len()) % sizes.len()]);
        }
        self.k += 1;
        buf[..n].copy_from_slice(&self.data[self.pos..self.pos + n]);
        self.pos += n;
        Ok(n)
    }
}

/// what happened when the program ran on the real crate
pub struct Run {
    pub results: Vec<String>, // one token per statement, protocol form
    pub file: Vec<u8>,        // device bytes after the writer was dropped
    pub panicked: bool,
    /// the last finalize statement executed was a plain `finalize()` that returned ok: the XML in the
    /// file is then exactly what the writer serialised (no caller transformer in between)
    pub plain_final: bool,
    /// number of device operations issued when the call that produced `results[i]` returned
    pub ops_after: Vec<u64>,
    /// device operations issued by `E57Writer::new`
    pub ops_new: u64,
}

/// results of the API calls of a run, each stamped with the device operation count at its return
struct Rs {
    v: Vec<String>,
    ops: Vec<u64>,
    dev: SimDev,
}
impl Rs {
    fn push(&mut self, s: String) {
        self.v.push(s);
        self.ops.push(self.dev.ops());
    }
}

fn res<T>(r: &std::result::Result<e57::Result<T>, String>) -> &'static str {
    match r {
        Ok(Ok(_)) => "ok",
        Ok(Err(_)) => "err",
        Err(_) => "panic",
    }
}

/// apply the FINX transformer modes
pub fn transformer(mode: &str) -> Box<dyn Fn(String) -> e57::Result<String>> {
    let mode = mode.to_string();
    Box::new(move |xml: String| {
        if mode == "id" {
            Ok(xml)
        } else if mode == "err" {
            Err(e57::Error::Invalid { desc: "transformer failed".into(), source: None })
        } else {
            let p: Vec<&str> = mode.split(':').collect();
            match p[0] {
                "app" => Ok(xml + &String::from_utf8(unhex(p[1]).unwrap()).unwrap()),
                "ins" => {
                    let pos: usize = p[1].parse().unwrap();
                    let t = unhex(p[2]).unwrap();
                    let mut b = xml.into_bytes();
                    let pos = pos.min(b.len());
                    b.splice(pos..pos, t);
                    String::from_utf8(b).map_err(|_| e57::Error::Invalid { desc: "not UTF-8".into(), source: None })
                }
                "sub" => {
                    let a = String::from_utf8(unhex(p[1]).unwrap()).unwrap();
                    let b = String::from_utf8(unhex(p[2]).unwrap()).unwrap();
                    if a.is_empty() {
                        Ok(b + &xml)
                    } else {
                        Ok(xml.replacen(&a, &b, 1))
                    }
                }
                _ => Ok(xml),
            }
        }
    })
}

/// run a program on the real crate over the given device
pub fn execute(prog: &Program, dev: &SimDev) -> Run {
    let mut results = Rs { v: vec![], ops: vec![], dev: dev.clone() };
    let mut panicked = false;
    let mut plain_final = false;
    let created = guarded(|| E57Writer::new(dev.clone(), &prog.guid));
    let mut w = match created {
        Ok(Ok(w)) => w,
        _ => {
            return Run { results: vec!["NEWERR".into()], file: dev.data(), panicked: created.is_err(), plain_final: false, ops_after: vec![dev.ops()], ops_new: dev.ops() };
        }
    };
    let ops_new = dev.ops();
    'outer: for s in &prog.stmts {
        match s {
            Stmt::Ext(ns, url) => {
                let r = guarded(|| w.register_extension(Extension::new(ns, url)));
                results.push(res(&r).into());
                if r.is_err() {
                    panicked = true;
                    break 'outer;
                }
            }
            Stmt::Cm(v) => {
                w.set_coordinate_metadata(v.clone());
                results.push("ok".into());
            }
            Stmt::Cr(v) => {
                w.set_creation(v.as_ref().map(mk_dt));
                results.push("ok".into());
            }
            Stmt::Blob(d) => {
                let bytes = d.bytes();
                let r = guarded(|| w.add_blob(&mut PieceReader::new(bytes)));
                match &r {
                    Ok(Ok(b)) => results.push(format!("ok:{}:{}", b.offset, b.length)),
                    _ => results.push(res(&r).into()),
                }
                if r.is_err() {
                    panicked = true;
                    break 'outer;
                }
            }
            Stmt::Fin => {
                let r = guarded(|| w.finalize());
                plain_final = matches!(r, Ok(Ok(_)));
                results.push(res(&r).into());
                if r.is_err() {
                    panicked = true;
                    break 'outer;
                }
            }
            Stmt::FinX(m) => {
                let tr = transformer(m);
                let r = guarded(|| w.finalize_customized_xml(tr));
                plain_final = false;
                results.push(res(&r).into());
                if r.is_err() {
                    panicked = true;
                    break 'outer;
                }
            }
            Stmt::Pc { guid, proto, body, end } => {
                let records: Vec<Record> = proto.iter().map(|r| r.record()).collect();
                let opened = guarded(|| w.add_pointcloud(guid, records));
                match opened {
                    Err(_) => {
                        results.push("panic".into());
                        panicked = true;
                        break 'outer;
                    }
                    Ok(Err(_)) => {
                        results.push("err".into());
                        for _ in 0..body.len() + 1 {
                            results.push("-".into());
                        }
                    }
                    Ok(Ok(mut pw)) => {
                        results.push("ok".into());
                        for b in body {
                            match b {
                                PcStmt::P(vs) => {
                                    let vals: Vec<RecordValue> = vs.iter().map(|v| v.rv()).collect();
                                    let r = guarded(|| pw.add_point(vals));
                                    results.push(res(&r).into());
                                    if r.is_err() {
                                        panicked = true;
                                        std::mem::forget(pw);
                                        break 'outer;
                                    }
                                }
                                PcStmt::Str(k, v) => {
                                    let v = v.clone();
                                    match *k {
                                        "NAME" => pw.set_name(v),
                                        "DESC" => pw.set_description(v),
                                        "VENDOR" => pw.set_sensor_vendor(v),
                                        "MODEL" => pw.set_sensor_model(v),
                                        "SERIAL" => pw.set_sensor_serial(v),
                                        "HW" => pw.set_sensor_hw_version(v),
                                        "SW" => pw.set_sensor_sw_version(v),
                                        _ => pw.set_sensor_fw_version(v),
                                    }
                                    results.push("ok".into());
                                }
                                PcStmt::Fin => {
                                    let r = guarded(|| pw.finalize());
                                    results.push(res(&r).into());
                                    if r.is_err() {
                                        panicked = true;
                                        std::mem::forget(pw);
                                        break 'outer;
                                    }
                                }
                                PcStmt::Og(v) => {
                                    pw.set_original_guids(v.clone());
                                    results.push("ok".into());
                                }
                                PcStmt::Tr(v) => {
                                    pw.set_transform(v.as_ref().map(mk_tr));
                                    results.push("ok".into());
                                }
                                PcStmt::Time(k, v) => {
                                    if *k == "AS" {
                                        pw.set_acquisition_start(v.as_ref().map(mk_dt));
                                    } else {
                                        pw.set_acquisition_end(v.as_ref().map(mk_dt));
                                    }
                                    results.push("ok".into());
                                }
                                PcStmt::Flt(k, v) => {
                                    let f = v.map(f64::from_bits);
                                    match *k {
                                        "TEMP" => pw.set_temperature(f),
                                        "HUM" => pw.set_humidity(f),
                                        _ => pw.set_atmospheric_pressure(f),
                                    }
                                    results.push("ok".into());
                                }
                                PcStmt::Il(v) => {
                                    pw.set_intensity_limits(v.as_ref().map(|(a, b)| IntensityLimits { intensity_min: a.as_ref().map(|x| x.rv()), intensity_max: b.as_ref().map(|x| x.rv()) }));
                                    results.push("ok".into());
                                }
                                PcStmt::Cl(v) => {
                                    pw.set_color_limits(v.as_ref().map(|l| {
                                        let g = |i: usize| l[i].as_ref().map(|x| x.rv());
                                        ColorLimits { red_min: g(0), red_max: g(1), green_min: g(2), green_max: g(3), blue_min: g(4), blue_max: g(5) }
                                    }));
                                    results.push("ok".into());
                                }
                            }
                        }
                        if *end {
                            let r = guarded(|| pw.finalize());
                            results.push(res(&r).into());
                            if r.is_err() {
                                panicked = true;
                                std::mem::forget(pw);
                                break 'outer;
                            }
                        } else {
                            results.push("ok".into());
                        }
                    }
                }
            }
            Stmt::Img { guid, body, end } => {
                let opened = guarded(|| w.add_image(guid));
                let mut iw = match opened {
                    Ok(Ok(iw)) => iw,
                    _ => {
                        results.push("panic".into());
                        panicked = true;
                        break 'outer;
                    }
                };
                results.push("ok".into());
                for b in body {
                    let mut r: std::result::Result<e57::Result<()>, String> = Ok(Ok(()));
                    match b {
                        ImgStmt::Str(k, v) => match *k {
                            "NAME" => iw.set_name(v),
                            "DESC" => iw.set_description(v),
                            "PCG" => iw.set_pointcloud_guid(v),
                            "VENDOR" => iw.set_sensor_vendor(v),
                            "MODEL" => iw.set_sensor_model(v),
                            _ => iw.set_sensor_serial(v),
                        },
                        ImgStmt::Tr(x) => iw.set_transform(mk_tr(x)),
                        ImgStmt::Acq(d) => iw.set_acquisition(mk_dt(d)),
                        ImgStmt::Vis { fmt, data, w: wd, h, mask } => {
                            let mut d = PieceReader::new(data.bytes());
                            let mut m = mask.as_ref().map(|m| PieceReader::new(m.bytes()));
                            let props = VisualReferenceImageProperties { width: *wd, height: *h };
                            r = guarded(|| iw.add_visual_reference(mk_fmt(*fmt), &mut d, props, m.as_mut().map(|x| x as &mut dyn std::io::Read)));
                        }
                        ImgStmt::Pin { fmt, data, w: wd, h, f, mask } => {
                            let mut d = PieceReader::new(data.bytes());
                            let mut m = mask.as_ref().map(|m| PieceReader::new(m.bytes()));
                            let g = |i: usize| f64::from_bits(f[i]);
                            let props = PinholeImageProperties { width: *wd, height: *h, focal_length: g(0), pixel_width: g(1), pixel_height: g(2), principal_x: g(3), principal_y: g(4) };
                            r = guarded(|| iw.add_pinhole(mk_fmt(*fmt), &mut d, props, m.as_mut().map(|x| x as &mut dyn std::io::Read)));
                        }
                        ImgStmt::Sph { fmt, data, w: wd, h, f, mask } => {
                            let mut d = PieceReader::new(data.bytes());
                            let mut m = mask.as_ref().map(|m| PieceReader::new(m.bytes()));
                            let g = |i: usize| f64::from_bits(f[i]);
                            let props = SphericalImageProperties { width: *wd, height: *h, pixel_width: g(0), pixel_height: g(1) };
                            r = guarded(|| iw.add_spherical(mk_fmt(*fmt), &mut d, props, m.as_mut().map(|x| x as &mut dyn std::io::Read)));
                        }
                        ImgStmt::Cyl { fmt, data, w: wd, h, f, mask } => {
                            let mut d = PieceReader::new(data.bytes());
                            let mut m = mask.as_ref().map(|m| PieceReader::new(m.bytes()));
                            let g = |i: usize| f64::from_bits(f[i]);
                            let props = CylindricalImageProperties { width: *wd, height: *h, radius: g(0), principal_y: g(1), pixel_width: g(2), pixel_height: g(3) };
                            r = guarded(|| iw.add_cylindrical(mk_fmt(*fmt), &mut d, props, m.as_mut().map(|x| x as &mut dyn std::io::Read)));
                        }
                    }
                    results.push(res(&r).into());
                    if r.is_err() {
                        panicked = true;
                        break 'outer;
                    }
                }
                if *end {
                    let r = guarded(|| iw.finalize());
                    results.push(res(&r).into());
                } else {
                    results.push("ok".into());
                }
            }
        }
    }
    let _ = guarded(|| drop(w));
    Run { results: results.v, file: dev.data(), panicked, plain_final, ops_after: results.ops, ops_new }
}

/// library version string the writer embeds (read once from a file written by the real crate)
pub fn library_version() -> String {
    let dev = SimDev::new(vec![]);
    let mut w = E57Writer::new(dev.clone(), "x").unwrap();
    w.finalize().unwrap();
    drop(w);
    let r = E57Reader::new(std::io::Cursor::new(dev.data())).unwrap();
    r.library_version().unwrap_or("").to_string()
}

/// independent extraction of the XML section (header fields + depaging)
pub fn extract_xml(file: &[u8]) -> Vec<u8> {
    if file.len() < 48 {
        return vec![];
    }
    let off = u64::from_le_bytes(file[24..32].try_into().unwrap()) as usize;
    let len = u64::from_le_bytes(file[32..40].try_into().unwrap()) as usize;
    if off > file.len() || len > file.len() {
        return vec![];
    }
    let mut logical = Vec::with_capacity(file.len());
    for p in file.chunks(1024) {
        logical.extend_from_slice(&p[..p.len().min(1020)]);
    }
    let lo = off - 4 * (off / 1024);
    if lo > logical.len() {
        return vec![];
    }
    logical[lo..(lo + len).min(logical.len())].to_vec()
}

pub fn fnv_bytes(b: &[u8]) -> u64 {
    let mut h: u64 = 0xcbf29ce484222325;
    for x in b {
        h ^= *x as u64;
        h = h.wrapping_mul(0x100000001b3);
    }
    h
}

pub fn run_line(run: &Run) -> String {
    // T: the tree roxmltree reports for the XML the writer serialised (C04, obligation "text -> tree"):
    // the Lean model states this tree directly (E57/Model/MetaTree.lean) and proves the reader's
    // round trip on it; here the real parser's answer is compared with the model's tree
    let t = if run.plain_final {
        let toks = crate::eng_reader::dump_xml(&extract_xml(&run.file)).0;
        format!("{}:{}", toks.len(), fnv(&toks.join(" ")))
    } else {
        "-".to_string()
    };
    format!("R {} | F {}:{} | X {} | T {}", run.results.join(" "), run.file.len(), fnv_bytes(&run.file), hex(&extract_xml(&run.file)), t)
}
