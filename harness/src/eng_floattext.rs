//! Engine "floattext": the hypothesis of the C04 theorems about the external float text functions —
//! Rust's `Display` and `FromStr` invert each other on every value the writer can print
//! (`F32OK` / `F64OK` in E57/Proofs/MetaRoundTrip.lean) — checked on the real implementation:
//! EXHAUSTIVELY for all 2^32 single-precision patterns in the thorough tier (a complete enumeration, not a
//! sample), on a stride in the quick tier; for doubles on structured and random samples.
//! NaN: the text "NaN" carries no payload or sign, so every NaN must come back as some NaN.
use crate::util::*;

/// formatting into a stack buffer: no heap traffic (the harness runs under a counting global allocator,
/// which would serialise sixteen threads)
struct Buf {
    b: [u8; 400],
    n: usize,
}
impl std::fmt::Write for Buf {
    fn write_str(&mut self, s: &str) -> std::fmt::Result {
        let bytes = s.as_bytes();
        if self.n + bytes.len() > self.b.len() {
            return Err(std::fmt::Error);
        }
        self.b[self.n..self.n + bytes.len()].copy_from_slice(bytes);
        self.n += bytes.len();
        Ok(())
    }
}

fn f32_ok(bits: u32) -> bool {
    use std::fmt::Write;
    let v = f32::from_bits(bits);
    let mut buf = Buf { b: [0; 400], n: 0 };
    if write!(buf, "{v}").is_err() {
        return false;
    }
    match std::str::from_utf8(&buf.b[..buf.n]).ok().and_then(|s| s.parse::<f32>().ok()) {
        Some(w) => (v.is_nan() && w.is_nan()) || w.to_bits() == bits,
        None => false,
    }
}

fn f64_ok(bits: u64) -> bool {
    use std::fmt::Write;
    let v = f64::from_bits(bits);
    let mut buf = Buf { b: [0; 400], n: 0 };
    if write!(buf, "{v}").is_err() {
        return false;
    }
    match std::str::from_utf8(&buf.b[..buf.n]).ok().and_then(|s| s.parse::<f64>().ok()) {
        Some(w) => (v.is_nan() && w.is_nan()) || w.to_bits() == bits,
        None => false,
    }
}

pub fn exec(_line: &str) -> String {
    "NOCASE".into()
}

pub fn generate(sink: &mut Sink, seed: u64, thorough: bool) {
    let threads = 16u32;
    // ---- f32
    let stride: u32 = if thorough { 1 } else { 4099 };
    let bad32 = std::sync::Mutex::new(Vec::<u32>::new());
    let count32 = std::sync::atomic::AtomicU64::new(0);
    std::thread::scope(|s| {
        for t in 0..threads {
            let bad32 = &bad32;
            let count32 = &count32;
            s.spawn(move || {
                let lo = (t as u64 * (1u64 << 32) / threads as u64) as u64;
                let hi = ((t as u64 + 1) * (1u64 << 32) / threads as u64) as u64;
                let mut b = lo + (seed % stride as u64);
                let mut n = 0u64;
                while b < hi {
                    if !f32_ok(b as u32) {
                        let mut g = bad32.lock().unwrap();
                        if g.len() < 20 {
                            g.push(b as u32);
                        }
                    }
                    n += 1;
                    b += stride as u64;
                }
                count32.fetch_add(n, std::sync::atomic::Ordering::SeqCst);
            });
        }
    });
    let n32 = count32.load(std::sync::atomic::Ordering::SeqCst);
    sink.oracle_evals += n32;
    sink.stat_n("f32_values_checked", n32);
    if thorough {
        sink.stat("f32_exhaustive");
    }
    for b in bad32.lock().unwrap().iter() {
        sink.fail("C04", "floattext/f32-roundtrip", &format!("f32 bits {b}"), &format!("the single-precision value with bit pattern {b:#x} printed as {:?} does not parse back to itself", format!("{}", f32::from_bits(*b))));
    }
    // ---- f64: structured (every exponent x mantissa patterns, integers, powers of ten neighbours) + random
    let mut rng = Rng::new(seed ^ 0xF10A7);
    let mut n64 = 0u64;
    let mut check = |sink: &mut Sink, b: u64| {
        if !f64_ok(b) && sink.failures.len() < 20 {
            sink.fail("C04", "floattext/f64-roundtrip", &format!("f64 bits {b}"), &format!("the double with bit pattern {b:#x} printed as {:?} does not parse back to itself", format!("{}", f64::from_bits(b))));
        }
    };
    for e in 0..2048u64 {
        for m in [0u64, 1, 2, (1 << 52) - 1, (1 << 52) - 2, 1 << 51, (1 << 51) - 1, (1 << 51) + 1, 0x5555555555555 & ((1 << 52) - 1), 0xAAAAAAAAAAAAA & ((1 << 52) - 1), 1 << 29, (1 << 29) - 1] {
            for s in [0u64, 1] {
                check(sink, (s << 63) | (e << 52) | m);
                n64 += 1;
            }
        }
    }
    for k in -330i32..=310 {
        let v: f64 = format!("1e{k}").parse().unwrap_or(0.0);
        for d in [-2i64, -1, 0, 1, 2] {
            check(sink, (v.to_bits() as i64 + d) as u64);
            n64 += 1;
        }
    }
    for _ in 0..(if thorough { 200_000_000u64 / 16 } else { 1_000_000 }) {
        check(sink, rng.next());
        n64 += 1;
    }
    sink.oracle_evals += n64;
    sink.stat_n("f64_values_checked", n64);
}
