//! Engine "copy" (C19): copying a file through the library is lossless, copying the copy changes
//! nothing, writing twice is deterministic.  The copy is expressed as a writer program built from
//! what the real reader reports, so the Lean writer model must produce the same bytes.
//! Engine "tools" (C20): the bundled command line tools run as processes.
use crate::dev::SimDev;
use crate::eng_reader::bundled_files;
use crate::eng_writer::*;
use crate::scene::*;
use crate::util::*;
use crate::wprog::*;
use std::process::Command;

/// a writer program that stores the content of `sc` (what a user of the library would call)
pub fn program_of_scene(sc: &Scene) -> Option<Program> {
    let mut stmts: Vec<Stmt> = vec![];
    for (ns, url) in &sc.exts {
        stmts.push(Stmt::Ext(ns.clone(), url.clone()));
    }
    stmts.push(Stmt::Cm(sc.cm.clone()));
    stmts.push(Stmt::Cr(sc.creation));
    for c in &sc.clouds {
        let mut body: Vec<PcStmt> = vec![];
        for (j, kw) in PC_STR.iter().enumerate() {
            body.push(PcStmt::Str(kw, c.strs[j].clone()));
        }
        body.push(PcStmt::Og(c.og.clone()));
        body.push(PcStmt::Tr(c.tr));
        body.push(PcStmt::Time("AS", c.acq[0]));
        body.push(PcStmt::Time("AE", c.acq[1]));
        for (j, kw) in ["TEMP", "HUM", "PRES"].iter().enumerate() {
            body.push(PcStmt::Flt(kw, c.flt[j]));
        }
        for p in &c.points {
            body.push(PcStmt::P(p.clone()));
        }
        body.push(PcStmt::Il(c.il.clone()));
        body.push(PcStmt::Cl(c.cl.clone()));
        stmts.push(Stmt::Pc { guid: c.guid.clone()?, proto: c.proto.clone(), body, end: true });
    }
    for im in &sc.images {
        let mut body: Vec<ImgStmt> = vec![];
        for (j, kw) in IMG_STR.iter().enumerate() {
            if let Some(v) = &im.strs[j] {
                body.push(ImgStmt::Str(kw, v.clone()));
            }
        }
        if let Some(t) = im.tr {
            body.push(ImgStmt::Tr(t));
        }
        if let Some(a) = im.acq {
            body.push(ImgStmt::Acq(a));
        }
        if let Some((fmt, d, w, h, m)) = &im.vis {
            body.push(ImgStmt::Vis { fmt: *fmt, data: Data::Hex(d.clone()), w: *w, h: *h, mask: m.clone().map(Data::Hex) });
        }
        match &im.proj {
            Some(SProj::Pin { fmt, data, w, h, f, mask }) => body.push(ImgStmt::Pin { fmt: *fmt, data: Data::Hex(data.clone()), w: *w, h: *h, f: *f, mask: mask.clone().map(Data::Hex) }),
            Some(SProj::Sph { fmt, data, w, h, f, mask }) => body.push(ImgStmt::Sph { fmt: *fmt, data: Data::Hex(data.clone()), w: *w, h: *h, f: *f, mask: mask.clone().map(Data::Hex) }),
            Some(SProj::Cyl { fmt, data, w, h, f, mask }) => body.push(ImgStmt::Cyl { fmt: *fmt, data: Data::Hex(data.clone()), w: *w, h: *h, f: *f, mask: mask.clone().map(Data::Hex) }),
            None => {}
        }
        stmts.push(Stmt::Img { guid: im.guid.clone()?, body, end: true });
    }
    stmts.push(Stmt::Fin);
    Some(Program { guid: sc.guid.clone(), stmts })
}

/// content comparison for copies: bounds of foreign producers need not be exact, so they are only
/// compared when `bounds` is set (files written by this library)
fn content_diffs(a: &Scene, b: &Scene, bounds: bool) -> Vec<Diff> {
    compare(a, b).into_iter().filter(|(p, _, _)| bounds || *p != "C14" || true).filter(|(_, sig, _)| bounds || !sig.starts_with("bounds/")).collect()
}

fn writer_rules_ok(sc: &Scene) -> bool {
    !sc.guid.is_empty()
        && sc.clouds.iter().all(|c| c.guid.is_some() && ref_prototype_ok(&c.proto, &sc.exts) && c.raw_error.is_none())
        && sc.images.iter().all(|i| i.guid.is_some() && (i.vis.is_some() || i.proj.is_some()))
        && sc.exts.iter().all(|e| ref_valid_name(&e.0))
}

pub fn exec(line: &str) -> String {
    if line.starts_with("xyz ") {
        return "REPLAY-NEEDS-TOOLS".into();
    }
    crate::eng_writer::exec(line)
}

pub fn generate(sink: &mut Sink, seed: u64, thorough: bool) {
    let mut rng = Rng::new(seed ^ 0xC09E);
    let lv = library_version();
    // sources: files of the real writer, bundled files of other producers
    let mut sources: Vec<(String, Vec<u8>, bool)> = vec![];
    let n = if thorough { 500 } else { 70 };
    let mut tries = 0;
    while sources.len() < n && tries < 4 * n {
        tries += 1;
        let prog = {
            let mut g = Gen { rng: &mut rng, exts: vec![], n: 0 };
            g.program(if tries % 20 == 0 { 1200 } else { 20 })
        };
        let dev = SimDev::new(vec![]);
        let run = execute(&prog, &dev);
        if run.panicked || run.results.last().map(|s| s != "ok").unwrap_or(true) {
            continue;
        }
        // determinism: the same calls again give the same bytes
        sink.oracle_evals += 1;
        let dev2 = SimDev::new(vec![]);
        let run2 = execute(&prog, &dev2);
        if run2.file != run.file {
            sink.fail("C19", "copy/nondeterministic-writer", &prog.case_line(&lv), "writing the same content twice gave different files");
        }
        sources.push((prog.case_line(&lv), run.file, true));
    }
    for (name, bytes) in bundled_files(if thorough { 800_000 } else { 60_000 }) {
        sources.push((format!("bundled_{name}"), bytes, false));
    }
    // files of the independent specification encoder (every legal layout; metadata combinations the bundled
    // files do not have, e.g. colour AND intensity limits): they do not depend on the writer under test
    match crate::eng_layout::encoded_files(&mut rng, if thorough { 300 } else { 50 }) {
        Some(fs) => {
            for (k, f) in fs.into_iter().enumerate() {
                sources.push((format!("encoded_{k}"), f, false));
            }
        }
        None => sink.fail("C19", "copy/encoder-unavailable", "", "E57MODEL is not set or the encoder could not be run"),
    }
    let mut sweeps_done = 0;
    for (tag, file, own) in sources {
        let Ok(Ok(sc)) = guarded(|| read_scene(&file, 1_000_000)) else {
            if own {
                // a file this writer just produced from calls that all succeeded must be readable
                sink.fail("C19", "copy/source-unreadable", &tag, "a file written by the library (all calls succeeded) cannot be read back, so it cannot be copied");
            }
            continue;
        };
        if !writer_rules_ok(&sc) {
            sink.stat("skipped_not_expressible");
            continue;
        }
        let Some(prog) = program_of_scene(&sc) else { continue };
        let line = prog.case_line(&lv);
        let dev = SimDev::new(vec![]);
        let run = execute(&prog, &dev);
        sink.oracle_evals += 1;
        if run.panicked {
            sink.fail("C10", "writer/panic/copy", &line, "copying panicked");
            continue;
        }
        if let Some(pos) = run.results.iter().position(|r| r == "err") {
            sink.fail("C19", "copy/rejected", &line, &format!("copying a readable file whose prototypes follow the rules failed at call {pos} ({tag})"));
            sink.case(line, run_line(&run), true);
            continue;
        }
        match guarded(|| read_scene(&run.file, 1_000_000)) {
            Ok(Ok(sc2)) => {
                for (_, sig, detail) in content_diffs(&sc, &sc2, own) {
                    sink.fail("C19", &format!("copy/content/{sig}"), &line, &format!("content of the copy differs from the original ({tag}): {detail}"));
                }
                // copying the copy changes nothing further (byte-identical)
                if let Some(prog2) = program_of_scene(&sc2) {
                    let dev3 = SimDev::new(vec![]);
                    let run3 = execute(&prog2, &dev3);
                    if run3.file != run.file {
                        sink.fail("C19", "copy/not-idempotent", &line, "copying the copy produced a different file");
                    }
                }
            }
            _ => sink.fail("C19", "copy/unreadable", &line, "the copy cannot be read"),
        }
        sink.stat(&format!("copied_{}", if own { "written" } else { "bundled" }));
        sink.case(line, run_line(&run), true);
        // position sweep: the same copy behind a spacer blob of length r, so that every section of
        // the copy meets the page boundaries at every residue (sources of other producers only:
        // they do not depend on the writer under test)
        if !own && file.len() <= 20_000 && sc.clouds.iter().any(|c| !c.points.is_empty()) && sweeps_done < if thorough { 6 } else { 2 } {
            sweeps_done += 1;
            let step = if thorough { 1 } else { 5 };
            let mut r = (seed as usize) % step;
            while r < 1020 {
                let mut p2 = prog.clone();
                p2.stmts.insert(0, Stmt::Blob(Data::Gen(r, r % 200)));
                let d = SimDev::new(vec![]);
                let run = execute(&p2, &d);
                let l2 = p2.case_line(&lv);
                sink.oracle_evals += 1;
                let okrun = !run.panicked && !run.results.iter().any(|x| x == "err");
                match (okrun, guarded(|| read_scene(&run.file, 1_000_000))) {
                    (true, Ok(Ok(sc2))) => {
                        if let Some((_, sig, detail)) = content_diffs(&sc, &sc2, own).first() {
                            sink.fail("C19", &format!("copy/content/{sig}"), &l2, &format!("content of the copy (behind a {r}-byte blob) differs from the original ({tag}): {detail}"));
                        }
                    }
                    _ => sink.fail("C19", "copy/unreadable", &l2, &format!("the copy behind a {r}-byte blob cannot be written or read ({tag})")),
                }
                sink.stat("copied_sweep");
                sink.case(l2, run_line(&run), true);
                r += step;
            }
        }
    }
}

// ---------------------------------------------------------------------------------------------- tools

fn tool(name: &str) -> Option<String> {
    let dir = std::env::var("E57TOOLS").ok()?;
    let p = format!("{dir}/{name}");
    if std::path::Path::new(&p).exists() {
        Some(p)
    } else {
        None
    }
}

fn f32_text(rng: &mut Rng) -> (f32, String) {
    let f = match rng.below(10) {
        0 => 0.0f32,
        1 => -0.0,
        2 => f32::MAX,
        3 => f32::MIN,
        4 => f32::MIN_POSITIVE,
        5 => f32::from_bits(1 + rng.below(1000) as u32),
        6 => rng.range(-100000, 100000) as f32 / 100.0,
        7 if rng.chance(1, 4) => *rng.pick(&[f32::INFINITY, f32::NEG_INFINITY]),
        _ => {
            let f = f32::from_bits(rng.next() as u32);
            if f.is_finite() {
                f
            } else {
                1.25
            }
        }
    };
    let s = match rng.below(3) {
        0 => format!("{:e}", f),
        _ => format!("{}", f),
    };
    (f, s)
}

pub fn generate_tools(sink: &mut Sink, seed: u64, thorough: bool) {
    let mut rng = Rng::new(seed ^ 0x7001);
    let dir = format!("/verif/work/tools-{}", std::process::id());
    let _ = std::fs::remove_dir_all(&dir);
    std::fs::create_dir_all(&dir).ok();
    let (Some(from_xyz), Some(to_xyz), Some(check_crc), Some(extract_xml), Some(unpack)) = (tool("e57-from-xyz"), tool("e57-to-xyz"), tool("e57-check-crc"), tool("e57-extract-xml"), tool("e57-unpack")) else {
        sink.fail("C20", "tools/not-built", "", "tool binaries not found (E57TOOLS)");
        return;
    };
    // ---- XYZ round trip
    let n = if thorough { 60 } else { 12 };
    for case in 0..n {
        let lines = match case {
            0 => 0,
            1 => 1,
            2 => 256,
            3 => 12000 + rng.below(400) as usize, // more than two data packets (4334 points each) even with the short lines skipped
            _ => 1 + rng.below(if thorough { 3000 } else { 400 }) as usize,
        };
        let mut text = String::new();
        let mut expect: Vec<([f32; 3], [u8; 3])> = vec![];
        for i in 0..lines {
            if rng.chance(1, 12) {
                // short line: skipped by the converter
                text.push_str(&format!("{} {}\n", i, i + 1));
                continue;
            }
            let (x, xs) = f32_text(&mut rng);
            let (y, ys) = f32_text(&mut rng);
            let (z, zs) = f32_text(&mut rng);
            // runs of equal colours, black and white (also in front), next to random ones
            let c: [u8; 3] = if case == 2 {
                [i as u8, (255 - i) as u8, (i * 7) as u8]
            } else if case % 3 == 1 && i < 3 + case {
                [0, 0, 0]
            } else {
                match rng.below(8) {
                    0 | 1 if !expect.is_empty() => expect[expect.len() - 1].1,
                    2 => [0, 0, 0],
                    3 => [255, 255, 255],
                    _ => [rng.next() as u8, rng.next() as u8, rng.next() as u8],
                }
            };
            text.push_str(&format!("{xs} {ys} {zs} {} {} {}", c[0], c[1], c[2]));
            if rng.chance(1, 6) {
                text.push_str(" 17 extra");
            }
            text.push('\n');
            expect.push(([x, y, z], c));
        }
        let xyz = format!("{dir}/c{case}.xyz");
        std::fs::write(&xyz, &text).ok();
        sink.oracle_evals += 1;
        let case_id = format!("xyz case={case} seed={seed} lines={lines} file={}", hexs(&text[..text.len().min(400)]));
        let s1 = Command::new(&from_xyz).arg(&xyz).output();
        if !s1.map(|o| o.status.success()).unwrap_or(false) {
            sink.fail("C20", "tools/from-xyz-failed", &case_id, "e57-from-xyz failed on a valid XYZ file");
            continue;
        }
        let e57 = format!("{xyz}.e57");
        let s2 = Command::new(&to_xyz).arg(&e57).output();
        if !s2.map(|o| o.status.success()).unwrap_or(false) {
            sink.fail("C20", "tools/to-xyz-failed", &case_id, "e57-to-xyz failed on the converted file");
            continue;
        }
        let back = std::fs::read_to_string(format!("{e57}.xyz")).unwrap_or_default();
        let got: Vec<([f32; 3], [u8; 3])> = back
            .lines()
            .filter_map(|l| {
                let p: Vec<&str> = l.split(' ').collect();
                if p.len() < 6 {
                    return None;
                }
                Some(([p[0].parse::<f64>().ok()? as f32, p[1].parse::<f64>().ok()? as f32, p[2].parse::<f64>().ok()? as f32], [p[3].parse().ok()?, p[4].parse().ok()?, p[5].parse().ok()?]))
            })
            .collect();
        if got.len() != expect.len() {
            sink.fail("C20", "tools/xyz-count", &case_id, &format!("{} points in, {} points out", expect.len(), got.len()));
        } else if let Some(k) = (0..got.len()).find(|k| got[*k].0.iter().zip(expect[*k].0.iter()).any(|(a, b)| a.to_bits() != b.to_bits())) {
            sink.fail("C20", "tools/xyz-coordinates", &case_id, &format!("point {k}: {:?} became {:?}", expect[k].0, got[k].0));
        } else if let Some(k) = (0..got.len()).find(|k| got[*k].1 != expect[*k].1) {
            sink.fail("C20", "tools/xyz-colour", &case_id, &format!("point {k}: colour {:?} became {:?}", expect[k].1, got[k].1));
        }
        // ---- check-crc on the intact and on a damaged copy; extract-xml; unpack
        let bytes = std::fs::read(&e57).unwrap_or_default();
        let ok = Command::new(&check_crc).arg(&e57).output().map(|o| o.status.success()).unwrap_or(false);
        if !ok {
            sink.fail("C20", "tools/check-crc-intact", &case_id, "e57-check-crc fails on an intact file");
        }
        if bytes.len() >= 1024 {
            let mut bad = bytes.clone();
            let pos = rng.below(bad.len() as u64) as usize;
            bad[pos] ^= 1 << rng.below(8);
            let badp = format!("{dir}/bad{case}.e57");
            std::fs::write(&badp, &bad).ok();
            let ok = Command::new(&check_crc).arg(&badp).output().map(|o| o.status.success()).unwrap_or(true);
            if ok {
                sink.fail("C20", "tools/check-crc-damaged", &case_id, &format!("e57-check-crc exits successfully although byte {pos} is damaged"));
            }
        }
        let xml_out = Command::new(&extract_xml).arg(&e57).output();
        let lib_xml = e57::E57Reader::raw_xml(std::io::Cursor::new(bytes.clone())).unwrap_or_default();
        match xml_out {
            Ok(o) if o.status.success() && o.stdout == lib_xml => {}
            _ => sink.fail("C20", "tools/extract-xml", &case_id, "e57-extract-xml does not emit exactly the XML the library returns"),
        }
        if case < 4 {
            let u = Command::new(&unpack).arg(&e57).output();
            let folder = format!("{e57}_unpacked");
            let meta = std::fs::read(format!("{folder}/metadata.xml")).unwrap_or_default();
            let mut r = e57::E57Reader::new(std::io::Cursor::new(bytes.clone())).ok();
            let lib = r.as_ref().map(|r| r.xml().as_bytes().to_vec()).unwrap_or_default();
            if !u.map(|o| o.status.success()).unwrap_or(false) || meta != lib {
                sink.fail("C20", "tools/unpack-xml", &case_id, "e57-unpack does not emit xml()");
            }
            // raw values as CSV
            if let Some(r) = r.as_mut() {
                let pcs = r.pointclouds();
                if let Some(pc) = pcs.first() {
                    let csv = std::fs::read_to_string(format!("{folder}/pc_0.csv")).unwrap_or_default();
                    let mut rows = csv.lines().skip(1);
                    if let Ok(it) = r.pointcloud_raw(pc) {
                        for p in it.flatten() {
                            let want = p.iter().map(|v| match v { e57::RecordValue::Single(s) => s.to_string(), e57::RecordValue::Double(d) => d.to_string(), e57::RecordValue::ScaledInteger(i) | e57::RecordValue::Integer(i) => i.to_string() }).collect::<Vec<_>>().join(";");
                            if rows.next() != Some(want.as_str()) {
                                sink.fail("C20", "tools/unpack-points", &case_id, "e57-unpack CSV differs from the raw values");
                                break;
                            }
                        }
                    }
                }
            }
        }
        sink.stat("xyz_case");
        sink.stat_n("xyz_points", expect.len() as u64);
        // correspondence with the Lean model of the tool logic: the numbers that come out
        let tlines: Vec<&str> = text.lines().collect();
        let mut table: std::collections::BTreeMap<String, (Option<u64>, Option<u32>)> = Default::default();
        for l in &tlines {
            for part in l.trim().split(' ') {
                let a = part.parse::<f64>().ok().map(|f| f.to_bits());
                let b = part.parse::<f32>().ok().map(|f| f.to_bits());
                if a.is_some() || b.is_some() {
                    table.insert(part.to_string(), (a, b));
                }
            }
        }
        let mut cl = vec!["xyz".to_string(), tlines.len().to_string()];
        cl.extend(tlines.iter().map(|l| hexs(l)));
        cl.push("FP".into());
        cl.push(table.len().to_string());
        for (k, (a, b)) in &table {
            cl.push(hexs(k));
            cl.push(opt_tok(a, |x| x.to_string()));
            cl.push(opt_tok(b, |x| x.to_string()));
        }
        let impl_line = if got.is_empty() { "-".to_string() } else { got.iter().map(|(c, k)| format!("{},{},{},{},{},{}", c[0].to_bits(), c[1].to_bits(), c[2].to_bits(), k[0], k[1], k[2])).collect::<Vec<_>>().join(";") };
        sink.case(cl.join(" "), impl_line, lines > 1);
    }
    // ---- the checksum / XML tools on files of the writer (C01 generator) and of other producers,
    //      intact, damaged, and altered-then-resealed (all page checksums valid again)
    let mut files: Vec<(String, Vec<u8>)> = vec![];
    let nprog = if thorough { 40 } else { 8 };
    let mut tries = 0;
    while files.len() < nprog && tries < nprog * 5 {
        tries += 1;
        let prog = {
            let mut g = Gen { rng: &mut rng, exts: vec![], n: 0 };
            g.program(20)
        };
        let dev = SimDev::new(vec![]);
        let run = execute(&prog, &dev);
        if run.panicked || run.results.last().map(|s| s != "ok").unwrap_or(true) {
            continue;
        }
        files.push((format!("written{}", files.len()), run.file));
    }
    for (n, b) in crate::eng_reader::bundled_files(if thorough { 300_000 } else { 20_000 }) {
        files.push((n, b));
    }
    let pages_ok = |f: &[u8]| -> bool { !f.is_empty() && f.len() % 1024 == 0 && f.chunks(1024).all(|p| crate::dev::ref_crc32c(&p[..1020]).to_be_bytes() == p[1020..1024]) };
    let reseal = |f: &mut Vec<u8>, page: usize| {
        let c = crate::dev::ref_crc32c(&f[page * 1024..page * 1024 + 1020]).to_be_bytes();
        f[page * 1024 + 1020..page * 1024 + 1024].copy_from_slice(&c);
    };
    for (k, (name, file)) in files.iter().enumerate() {
        if file.len() < 1024 || file.len() % 1024 != 0 {
            continue;
        }
        let npages = file.len() / 1024;
        let mut variants: Vec<(String, Vec<u8>)> = vec![("intact".into(), file.clone())];
        {
            let mut f = file.clone();
            let pos = rng.below(f.len() as u64) as usize;
            f[pos] ^= 1 << rng.below(8);
            variants.push((format!("bitflip@{pos}"), f));
        }
        {
            let mut f = file.clone();
            let p = rng.below(npages as u64) as usize;
            f[p * 1024 + 1020 + rng.below(4) as usize] ^= 0x80;
            variants.push((format!("stored-crc@page{p}"), f));
        }
        {
            let mut f = file.clone();
            let p = rng.below(npages as u64) as usize;
            for b in &mut f[p * 1024..p * 1024 + 1024] {
                *b = 0;
            }
            variants.push((format!("zeroed-page{p}"), f));
        }
        // header fields altered and page 0 resealed: every page checksum is valid
        for (what, off, val) in [("signature", 0usize, b'X'), ("major", 8, 2), ("minor", 12, 1), ("xml-offset", 24, 0xff), ("xml-length", 33, 0x7f), ("phys-length", 16, 1)] {
            let mut f = file.clone();
            f[off] = val;
            reseal(&mut f, 0);
            variants.push((format!("resealed-{what}"), f));
        }
        {
            // payload altered in a random page and resealed
            let mut f = file.clone();
            let p = rng.below(npages as u64) as usize;
            let pos = p * 1024 + rng.below(1020) as usize;
            if p > 0 || pos >= 48 {
                f[pos] ^= 0x55;
                reseal(&mut f, p);
                variants.push((format!("resealed-payload@{pos}"), f));
            }
        }
        for (vn, f) in variants {
            sink.oracle_evals += 1;
            let path = format!("{dir}/t{k}.e57");
            std::fs::write(&path, &f).ok();
            let case_id = format!("toolfile source={name} variant={vn} seed={seed}");
            let expect_ok = pages_ok(&f);
            let ok = Command::new(&check_crc).arg(&path).output().map(|o| o.status.success()).unwrap_or(!expect_ok);
            if ok != expect_ok {
                sink.fail("C20", if expect_ok { "tools/check-crc-rejects-valid-pages" } else { "tools/check-crc-accepts-damaged-pages" }, &case_id, &format!("e57-check-crc exit success={ok}, all page checksums valid={expect_ok}"));
            }
            let lib = e57::E57Reader::raw_xml(std::io::Cursor::new(f.clone()));
            let out = Command::new(&extract_xml).arg(&path).output();
            match (&lib, out) {
                (Ok(x), Ok(o)) if o.status.success() && &o.stdout == x => {}
                (Err(_), Ok(o)) if !o.status.success() => {}
                _ => sink.fail("C20", "tools/extract-xml", &case_id, "e57-extract-xml does not behave like raw_xml() (same bytes, or failure exactly when the library fails)"),
            }
            sink.stat(&format!("toolfile_{}", vn.split('@').next().unwrap_or("")));
        }
    }
    // ---- e57-unpack against the GROUND TRUTH (the bytes handed to the writer), not only against what the
    //      library returns: images with masks behind a spacer blob whose length sweeps the page residues,
    //      so that every blob section header meets a page boundary
    let mut r = (seed % 7) as usize;
    let step = if thorough { 1 } else { 7 };
    let mut sweep: Vec<usize> = vec![];
    while r < 1100 {
        sweep.push(r);
        r += step;
    }
    if !thorough {
        sweep.extend(930..=960);
        sweep.extend(585..=605);
    }
    for (k, r) in sweep.iter().enumerate() {
        let img = Stmt::Img {
            guid: format!("img-{k}"),
            body: vec![
                ImgStmt::Vis { fmt: 'P', data: Data::Gen(40 + k % 50, k), w: 3, h: 4, mask: Some(Data::Gen(9 + k % 7, k + 1)) },
                ImgStmt::Pin { fmt: 'J', data: Data::Gen(300 + k % 90, k + 2), w: 5, h: 6, f: [1f64.to_bits(), 2f64.to_bits(), 3f64.to_bits(), 4f64.to_bits(), 5f64.to_bits()], mask: Some(Data::Gen(1021, k + 3)) },
            ],
            end: true,
        };
        let prog = Program { guid: "unpack".into(), stmts: vec![Stmt::Blob(Data::Gen(*r, 3)), img, Stmt::Fin] };
        let dev = SimDev::new(vec![]);
        let run = execute(&prog, &dev);
        sink.oracle_evals += 1;
        let case_id = format!("unpack spacer={r} {}", prog.case_line(&library_version()));
        if run.panicked || run.results.iter().any(|x| x == "err") {
            sink.fail("C20", "tools/unpack-source-not-written", &case_id, "writing an image behind a spacer blob failed");
            continue;
        }
        let path = format!("{dir}/u{k}.e57");
        std::fs::write(&path, &run.file).ok();
        let out = Command::new(&unpack).arg(&path).output();
        let folder = format!("{path}_unpacked");
        let okrun = out.map(|o| o.status.success()).unwrap_or(false);
        let want: Vec<(&str, Vec<u8>)> = vec![
            ("image_0_preview.png", Data::Gen(40 + k % 50, k).bytes()),
            ("image_0_preview_mask.png", Data::Gen(9 + k % 7, k + 1).bytes()),
            ("image_0_pinhole.jpeg", Data::Gen(300 + k % 90, k + 2).bytes()),
            ("image_0_pinhole_mask.png", Data::Gen(1021, k + 3).bytes()),
        ];
        if !okrun {
            sink.fail("C20", "tools/unpack-failed", &case_id, "e57-unpack failed on a file the writer produced");
        } else {
            for (name, bytes) in want {
                let got = std::fs::read(format!("{folder}/{name}")).ok();
                if got.as_ref() != Some(&bytes) {
                    sink.fail("C20", "tools/unpack-image-bytes", &case_id, &format!("{name}: {} bytes handed to the writer, e57-unpack wrote {:?} bytes, equal={}", bytes.len(), got.as_ref().map(|g| g.len()), got.as_ref() == Some(&bytes)));
                    break;
                }
            }
        }
        let _ = std::fs::remove_dir_all(&folder);
        let _ = std::fs::remove_file(&path);
        sink.stat("unpack_ground_truth");
    }
    // ---- e57-unpack on files with SEVERAL point clouds, empty ones among them: cloud i of the library is pc_<i>.csv
    for case in 0..(if thorough { 12 } else { 4 }) {
        let sizes: Vec<usize> = match case % 4 {
            0 => vec![2, 0, 3],
            1 => vec![0, 4],
            2 => vec![3, 1, 0],
            _ => vec![0, 0, 2, 0, 1],
        };
        let mut stmts: Vec<Stmt> = vec![];
        for (k, n) in sizes.iter().enumerate() {
            let proto = vec![
                Rec { name: RName::Std("cartesianX".into()), dt: DT::F32(None, None) },
                Rec { name: RName::Std("cartesianY".into()), dt: DT::F64(None, None) },
                Rec { name: RName::Std("cartesianZ".into()), dt: DT::S(-100, 100, 0.5f64.to_bits(), 0f64.to_bits()) },
                Rec { name: RName::Std("intensity".into()), dt: DT::I(0, 9 + k as i64) },
            ];
            let body: Vec<PcStmt> = (0..*n).map(|j| PcStmt::P(vec![Val::F(((k * 10 + j) as f32 + 0.5).to_bits()), Val::D(((j as f64) - 0.25).to_bits()), Val::S(j as i64 - 3), Val::I((j % 9) as i64)])).collect();
            stmts.push(Stmt::Pc { guid: format!("cloud-{k}"), proto, body, end: true });
        }
        stmts.push(Stmt::Fin);
        let prog = Program { guid: "unpack-clouds".into(), stmts };
        let run = execute(&prog, &SimDev::new(vec![]));
        let case_id = format!("unpack clouds={sizes:?} {}", prog.case_line(&library_version()));
        sink.oracle_evals += 1;
        if run.panicked || run.results.last().map(|r| r != "ok").unwrap_or(true) {
            continue;
        }
        let path = format!("{dir}/clouds{case}.e57");
        std::fs::write(&path, &run.file).ok();
        let out = Command::new(&unpack).arg(&path).output();
        let folder = format!("{path}_unpacked");
        if !out.map(|o| o.status.success()).unwrap_or(false) {
            sink.fail("C20", "tools/unpack-failed", &case_id, "e57-unpack failed on a file the writer produced");
            continue;
        }
        if let Ok(mut r) = e57::E57Reader::new(std::io::Cursor::new(run.file.clone())) {
            let pcs = r.pointclouds();
            for (i, pc) in pcs.iter().enumerate() {
                let csv = match std::fs::read_to_string(format!("{folder}/pc_{i}.csv")) {
                    Ok(c) => c,
                    Err(_) => {
                        sink.fail("C20", "tools/unpack-cloud-missing", &case_id, &format!("e57-unpack wrote no pc_{i}.csv for point cloud {i} ({} records) of the library", pc.records));
                        continue;
                    }
                };
                let rows: Vec<&str> = csv.lines().skip(1).collect();
                let want: Vec<String> = r.pointcloud_raw(pc).map(|it| it.flatten().map(|p| p.iter().map(|v| match v { e57::RecordValue::Single(s) => s.to_string(), e57::RecordValue::Double(d) => d.to_string(), e57::RecordValue::ScaledInteger(i) | e57::RecordValue::Integer(i) => i.to_string() }).collect::<Vec<_>>().join(";")).collect()).unwrap_or_default();
                if rows.len() != want.len() || rows.iter().zip(want.iter()).any(|(a, b)| *a != b.as_str()) {
                    sink.fail("C20", "tools/unpack-points", &case_id, &format!("pc_{i}.csv holds {} rows, point cloud {i} of the library has {} points; rows equal = {}", rows.len(), want.len(), rows.iter().zip(want.iter()).all(|(a, b)| *a == b.as_str())));
                }
            }
        }
        sink.stat("unpack_several_clouds");
    }
    let _ = std::fs::remove_dir_all(&dir);
}
